"""Sibling rules: re-instantiations of the code builder must carry the builder's identity."""

from __future__ import annotations

import ast
from typing import Dict, List, Tuple

from .srcmodel import M_PACK, M_UNPACK, Repo, walk_no_nested

IDENTITY_KW = {"format_name": "spec.builder.format_name", "default_dialect": "spec.builder.default_dialect", "attrs": "method_loc"}


def nested_builder_constructions(repo: Repo) -> List[Tuple[str, str, Dict[str, str], int]]:
    """(function key, loc, keyword map, #positional) of every `spec.builder.__class__(...)` in pack.py / unpack.py."""
    out = []
    for mod in (M_PACK, M_UNPACK):
        for fi in repo.module_funcs(mod):
            for n in walk_no_nested(fi.node):
                if isinstance(n, ast.Call) and ast.unparse(n.func) == "spec.builder.__class__":
                    kws = {k.arg: ast.unparse(k.value) for k in n.keywords if k.arg}
                    out.append((fi.key, f"{fi.loc.rsplit(':', 1)[0]}:{n.lineno}", kws, len(n.args)))
    return out


def check_nested_builders(repo: Repo, rep, rule: str) -> None:
    cons = nested_builder_constructions(repo)
    if len(cons) < 4:
        rep.error(f"{rule}: only {len(cons)} nested builder constructions found (expected 4)")
    for key, loc, kws, npos in cons:
        problems = []
        for k, want in IDENTITY_KW.items():
            if k not in kws:
                problems.append(f"{k} is not passed")
            elif " ".join(kws[k].split()) != want:
                problems.append(f"{k}={kws[k]} (expected {want})")
        if "attrs_registry" not in kws or "spec.attrs_registry" not in kws["attrs_registry"]:
            problems.append("attrs_registry is not handed down")
        extra = sorted(set(kws) - set(IDENTITY_KW) - {"attrs_registry"})
        if extra:
            problems.append(f"additionally passes {extra}: everything but format / default dialect / holder must start from the nested class's own defaults "
                            "(a nested class decides about its own dialect, postponed evaluation and first method)")
        inst = f"{key.split('::')[-1]}: nested builder({', '.join(sorted(kws))})"
        if problems:
            rep.violation(rule, key, inst, "the builder created for a nested (or Self-typed) dataclass does not carry the identity of the "
                          "current builder: " + "; ".join(problems) + " -- the nested method is compiled for another format / without the format dialect", loc=loc)
        else:
            rep.ok(rule, inst, {"site": key, "keywords": kws})
    # all sites agree
    sigs = {tuple(sorted((k, " ".join(v.split())) for k, v in kws.items() if k in IDENTITY_KW or k == "attrs_registry")) for _, _, kws, _ in cons}
    if len(sigs) > 1:
        rep.violation(rule, f"{M_PACK}::pack_dataclass", "nested builder constructions disagree", f"the four sibling constructions pass different identity arguments: {sorted(sigs)}")


def check_own_method_tests(repo: Repo, rep, rule: str) -> None:
    """Every python-level decision "does this class already have its compiled method?" that guards a nested
    `builder.add_pack_method()` / `add_unpack_method()` asks for the class's *own* definition
    (`get_class_that_defines_method(name, loc) != loc`).  `hasattr` / `getattr(..., None)` also accept a method
    inherited from a parent class: a subclass then runs its parent's compiled code (its own fields and hooks are
    ignored) -- for the format-specific methods, which are compiled on demand, no test of the suite notices."""
    import ast as _ast

    from .srcmodel import M_PACK, M_UNPACK

    n = 0
    for mod in (M_PACK, M_UNPACK):
        for key, fi in sorted(repo.funcs.items()):
            if fi.module != mod:
                continue

            def visit(node, guards):
                nonlocal n
                for ch in _ast.iter_child_nodes(node):
                    if isinstance(ch, (_ast.FunctionDef, _ast.Lambda, _ast.ClassDef)) and ch is not fi.node:
                        continue
                    if isinstance(ch, _ast.If):
                        for b in ch.body:
                            visit_stmt(b, guards + [ch.test])
                        for b in ch.orelse:
                            visit_stmt(b, guards)
                    else:
                        visit_stmt(ch, guards)

            def visit_stmt(st, guards):
                nonlocal n
                if isinstance(st, _ast.Expr) and isinstance(st.value, _ast.Call) and isinstance(st.value.func, _ast.Attribute) \
                        and st.value.func.attr in ("add_pack_method", "add_unpack_method"):
                    n += 1
                    tests = [_ast.unparse(g) for g in guards]
                    own = [t for t in tests if "get_class_that_defines_method(" in t]
                    weak = [t for t in tests if ("hasattr(" in t or "getattr(" in t) and "get_class_that_defines_method(" not in t and "method_name" in t]
                    if weak or not own:
                        rep.violation(rule, fi.key, f"{fi.qualname}: nested compilation guarded by `{(weak or tests or ['<nothing>'])[0][:80]}`",
                                      "the guard accepts a compiled method inherited from a parent class, so a subclass is (de)serialized by its parent's code: fields and hooks the "
                                      "subclass adds are ignored on the on-demand (format-specific, Self, nested) paths", loc=f"{fi.loc.split(':')[0]}:{st.lineno}")
                    else:
                        rep.ok(rule, f"{fi.qualname}: nested compilation guarded by the class's own definition test", None)
                    return
                if isinstance(st, _ast.If):
                    for b in st.body:
                        visit_stmt(b, guards + [st.test])
                    for b in st.orelse:
                        visit_stmt(b, guards)
                    return
                visit(st, guards)

            visit(fi.node, [])
    if n < 4:
        rep.error(f"{rule}: only {n} nested compilation sites found")
