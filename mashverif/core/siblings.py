"""Sibling rules: re-instantiations of the code builder must carry the builder's identity."""

from __future__ import annotations

import ast
from typing import Dict, List, Tuple

from .srcmodel import M_PACK, M_UNPACK, Repo, walk_no_nested

IDENTITY_KW = {"format_name": "spec.builder.format_name", "default_dialect": "spec.builder.default_dialect", "attrs": "method_loc"}


def nested_builder_constructions(repo: Repo) -> List[Tuple[str, str, Dict[str, str], int]]:
    """(function key, loc, keyword map, #positional) of every `spec.builder.__class__(...)` in pack.py / unpack.py."""
    out = []
    for mod in (M_PACK, M_UNPACK):
        for fi in repo.module_funcs(mod):
            for n in walk_no_nested(fi.node):
                if isinstance(n, ast.Call) and ast.unparse(n.func) == "spec.builder.__class__":
                    kws = {k.arg: ast.unparse(k.value) for k in n.keywords if k.arg}
                    out.append((fi.key, f"{fi.loc.rsplit(':', 1)[0]}:{n.lineno}", kws, len(n.args)))
    return out


def check_nested_builders(repo: Repo, rep, rule: str) -> None:
    cons = nested_builder_constructions(repo)
    if len(cons) < 4:
        rep.error(f"{rule}: only {len(cons)} nested builder constructions found (expected 4)")
    for key, loc, kws, npos in cons:
        problems = []
        for k, want in IDENTITY_KW.items():
            if k not in kws:
                problems.append(f"{k} is not passed")
            elif " ".join(kws[k].split()) != want:
                problems.append(f"{k}={kws[k]} (expected {want})")
        if "attrs_registry" not in kws or "spec.attrs_registry" not in kws["attrs_registry"]:
            problems.append("attrs_registry is not handed down")
        inst = f"{key.split('::')[-1]}: nested builder({', '.join(sorted(kws))})"
        if problems:
            rep.violation(rule, key, inst, "the builder created for a nested (or Self-typed) dataclass does not carry the identity of the "
                          "current builder: " + "; ".join(problems) + " -- the nested method is compiled for another format / without the format dialect", loc=loc)
        else:
            rep.ok(rule, inst, {"site": key, "keywords": kws})
    # all sites agree
    sigs = {tuple(sorted((k, " ".join(v.split())) for k, v in kws.items() if k in IDENTITY_KW or k == "attrs_registry")) for _, _, kws, _ in cons}
    if len(sigs) > 1:
        rep.violation(rule, f"{M_PACK}::pack_dataclass", "nested builder constructions disagree", f"the four sibling constructions pass different identity arguments: {sorted(sigs)}")
