"""Ownership ("who may write") analysis of the generator's own Python code.

Every in-place mutation (subscript store / delete, mutator method call, setattr) in the library's modules must act on
a container the mutating function *owns* -- a local bound only to fresh containers, or an attribute of ``self`` that
every assignment in the class binds to a fresh container -- or on one of the designed shared stores listed in SHARED
with a reason.  Anything else writes into an object borrowed from a caller: class-level parameter dicts shared by all
dataclasses of a mixin, Config / Dialect attributes, dataclass Field metadata, the caller's input.  Such a write makes
the behaviour of one class depend on which other classes were compiled before it."""

from __future__ import annotations

import ast
from typing import Dict, List, Optional, Set, Tuple

from .srcmodel import FuncInfo, Repo, walk_no_nested

MUTATORS = {"append", "extend", "insert", "pop", "remove", "clear", "update", "setdefault", "add", "discard", "sort", "reverse",
            "popitem", "appendleft", "extendleft", "__setitem__", "__delitem__"}
FRESH_CALLS = {"dict", "list", "set", "OrderedDict", "deque", "defaultdict", "sorted", "CodeLines", "frozenset", "tuple", "bytearray"}

# designed shared / per-object stores: (function qualname or '*', base text) -> reason
SHARED: Dict[Tuple[str, str], str] = {
    ("*", "self.globals"): "the builder's own namespace: rebound to globals().copy() in reset() before every compilation",
    ("*", "self.lines"): "the builder's own CodeLines",
    ("*", "lines"): "CodeLines buffer handed to an emission helper: appending lines is its purpose",
    ("*", "self._lines"): "CodeLines internals",
    ("CodeLines.indent", "self"): "CodeLines appends to itself",
    ("CodeLines.append", "self._lines"): "CodeLines internals",
    ("CodeLines.extend", "self._lines"): "CodeLines internals",
    ("Registry.register", "self._registry"): "creator registry filled at import time by @register",
    ("InstanceSchemaCreatorRegistry.register", "self._registry"): "schema creator registry filled at import time by @register",
    ("ValueSpec.attrs", "self.attrs_registry"): "attrs registry: the designed per-codec store of AttrsHolder objects, keyed by type",
    ("CodeBuilder._get_field_class", "self.field_classes"): "per-builder memo, rebound to {} in reset()",
    ("CodeBuilder.__get_field_types", "fields"): "fresh dict built by this function (typing.get_type_hints result is not kept)",
    ("CodecCodeBuilder.new", "kwargs"): "the **kwargs dict of this call: a fresh dict by construction",
    ("on_dataclass", "ctx.definitions"): "schema definitions collected in the caller's Context: the documented accumulator",
    ("UnionUnpackerBuilder._add_body", "orig_lines"): "alias of the `lines` CodeLines parameter (emission)",
    ("JSONSchema.__post_serialize__", "d"): "the post-serialize hook owns the dict that to_dict just built for it",
    ("Instance.get_overridden_serialization_method", "self.metadata"): "Instance.metadata is a cached_property returning a private dict(**...) copy of the field metadata",
}
SETATTR_OK = {
    "_pack_with_annotated_serialization_strategy": "stores the strategy callable on the attrs holder under a per-field unique name",
    "pack_type_with_overridden_serialization": "stores the overridden method on the attrs holder under a per-field unique name",
    "_unpack_with_annotated_serialization_strategy": "as above (deserialize)",
    "unpack_type_with_overridden_deserialization": "as above (deserialize)",
    "DiscriminatedUnionUnpackerBuilder._add_body": "creates the (initially empty) variant registry on its holder",
    "Dialect.merge": "sets options on the fresh dialect class created in this call",
    "CodeBuilder.compile": "installs the compiled method",
    "CodeBuilder._add_setattr": "installs the compiled method",
}


def _root(e: ast.expr) -> Tuple[Optional[str], int]:
    """(text of the base up to the first attribute of a name, nesting depth of subscripts/calls crossed)."""
    depth = 0
    cur = e
    while True:
        if isinstance(cur, ast.Subscript):
            depth += 1
            cur = cur.value
        elif isinstance(cur, ast.Call) and isinstance(cur.func, ast.Attribute) and cur.func.attr in ("setdefault", "get", "copy"):
            depth += 1
            cur = cur.func.value
        elif isinstance(cur, ast.Attribute):
            if isinstance(cur.value, ast.Name):
                return f"{cur.value.id}.{cur.attr}", depth
            depth += 1
            cur = cur.value
        elif isinstance(cur, ast.Name):
            return cur.id, depth
        else:
            return None, depth


def _is_fresh(e: Optional[ast.expr]) -> bool:
    if e is None:
        return False
    if isinstance(e, (ast.Dict, ast.List, ast.Set, ast.ListComp, ast.SetComp, ast.DictComp)):
        return True
    if isinstance(e, ast.Call):
        f = e.func
        if isinstance(f, ast.Name) and f.id in FRESH_CALLS:
            return True
        if isinstance(f, ast.Attribute) and f.attr in ("copy", "split", "items", "keys", "values"):
            return f.attr in ("copy", "split")
        return False
    if isinstance(e, ast.BinOp) and isinstance(e.op, ast.Add):
        return _is_fresh(e.left) or _is_fresh(e.right)
    return False


def _bindings(fn: ast.AST, name: str) -> List[Optional[ast.expr]]:
    out: List[Optional[ast.expr]] = []
    for n in walk_no_nested(fn):
        if isinstance(n, ast.Assign):
            for t in n.targets:
                if isinstance(t, ast.Name) and t.id == name:
                    out.append(n.value)
                elif isinstance(t, (ast.Tuple, ast.List)) and any(isinstance(x, ast.Name) and x.id == name for x in t.elts):
                    out.append(None)
        elif isinstance(n, ast.AnnAssign) and isinstance(n.target, ast.Name) and n.target.id == name:
            out.append(n.value)
        elif isinstance(n, (ast.For, ast.comprehension)):
            tg = n.target
            if any(isinstance(x, ast.Name) and x.id == name for x in ast.walk(tg)):
                out.append(None)
        elif isinstance(n, ast.With):
            for it in n.items:
                if it.optional_vars is not None and any(isinstance(x, ast.Name) and x.id == name for x in ast.walk(it.optional_vars)):
                    out.append(None)
        elif isinstance(n, ast.NamedExpr) and n.target.id == name:
            out.append(n.value)
    return out


def _self_attr_fresh(repo: Repo, fi: FuncInfo, attr: str) -> bool:
    """every assignment `self.<attr> = ...` in the class binds a fresh container"""
    if not fi.cls:
        return False
    ci = repo.classes.get(f"{fi.module}::{fi.cls}")
    if ci is None:
        return False
    vals = []
    for c in repo.mro(ci):
        for n in ast.walk(c.node):
            if isinstance(n, ast.Assign):
                for t in n.targets:
                    if isinstance(t, ast.Attribute) and isinstance(t.value, ast.Name) and t.value.id == "self" and t.attr == attr:
                        vals.append(n.value)
            if isinstance(n, ast.AnnAssign) and isinstance(n.target, ast.Attribute) and isinstance(n.target.value, ast.Name) and n.target.value.id == "self" and n.target.attr == attr:
                vals.append(n.value)
    return bool(vals) and all(_is_fresh(v) for v in vals)


def analyse(repo: Repo, modules=None):
    """-> (owned_sites, shared_sites, borrowed) ; borrowed = [(FuncInfo, base, statement text, lineno)]"""
    owned = shared = 0
    borrowed = []
    for key, fi in sorted(repo.funcs.items()):
        if modules is not None and fi.module not in modules:
            continue
        if not fi.module.startswith("mashumaro"):
            continue
        params = {a.arg for a in fi.node.args.posonlyargs + fi.node.args.args + fi.node.args.kwonlyargs}
        if fi.node.args.vararg:
            params.add(fi.node.args.vararg.arg)
        kwarg = fi.node.args.kwarg.arg if fi.node.args.kwarg else None
        for st in walk_no_nested(fi.node):
            sites: List[Tuple[ast.expr, str]] = []
            if isinstance(st, ast.Assign):
                sites += [(t.value, "store") for t in st.targets if isinstance(t, ast.Subscript)]
            elif isinstance(st, ast.AugAssign) and isinstance(st.target, ast.Subscript):
                sites.append((st.target.value, "store"))
            elif isinstance(st, ast.Delete):
                sites += [(t.value, "del") for t in st.targets if isinstance(t, ast.Subscript)]
            elif isinstance(st, ast.Call) and isinstance(st.func, ast.Attribute) and st.func.attr in MUTATORS:
                sites.append((st.func.value, st.func.attr))
            elif isinstance(st, ast.Call) and isinstance(st.func, ast.Name) and st.func.id in ("setattr", "delattr") and st.args:
                if fi.qualname in SETATTR_OK:
                    shared += 1
                else:
                    borrowed.append((fi, "setattr(" + ast.unparse(st.args[0]) + ", ...)", ast.unparse(st)[:120], st.lineno))
                continue
            for base_e, how in sites:
                base, depth = _root(base_e)
                text = ast.unparse(base_e)
                if base is None:
                    borrowed.append((fi, text, f"{how} on {text}", st.lineno))
                    continue
                if (fi.qualname, base) in SHARED or ("*", base) in SHARED or (fi.qualname, text) in SHARED:
                    shared += 1
                    continue
                if "." in base:
                    obj, attr = base.split(".", 1)
                    if obj == "self" and depth == 0 and _self_attr_fresh(repo, fi, attr):
                        owned += 1
                        continue
                    borrowed.append((fi, text, f"{how} on {text}", st.lineno))
                    continue
                if base == kwarg and depth == 0:
                    owned += 1
                    continue
                if base in params:
                    borrowed.append((fi, text, f"{how} on parameter {text}", st.lineno))
                    continue
                b = _bindings(fi.node, base)
                if b and all(_is_fresh(v) for v in b):
                    if depth == 0:
                        owned += 1
                        continue
                    # nested element of an owned container: owned only if every element stored into it is fresh
                    stores = [n.value for n in walk_no_nested(fi.node) if isinstance(n, ast.Assign) and any(isinstance(t, ast.Subscript) and ast.unparse(t.value) == base for t in n.targets)]
                    if all(_is_fresh(v) or isinstance(v, ast.Name) for v in stores):
                        owned += 1
                        continue
                borrowed.append((fi, text, f"{how} on {text}", st.lineno))
    return owned, shared, borrowed


def positive_control() -> List[str]:
    """The analysis must flag these canned borrow-writes (and accept the canned owned write) on every run."""
    import types

    src = (
        "class B:\n"
        "    def __init__(self, kw=None):\n"
        "        self.kw = kw or {}\n"
        "        self.own = {}\n"
        "    def f(self, cfg):\n"
        "        self.kw['a'] = 1\n"
        "        cfg.aliases.update({})\n"
        "        self.own['x'] = 1\n"
        "        loc = {}\n"
        "        loc['y'] = 2\n"
        "        al = cfg.aliases\n"
        "        al['z'] = 3\n"
    )
    tree = ast.parse(src)
    cls = tree.body[0]
    fn = cls.body[1]
    ci = types.SimpleNamespace(node=cls, key="mashumaro.x::B")
    fi = types.SimpleNamespace(module="mashumaro.x", qualname="B.f", cls="B", node=fn, key="mashumaro.x::B.f", loc="x.py:5")
    repo = types.SimpleNamespace(funcs={fi.key: fi}, classes={"mashumaro.x::B": ci}, mro=lambda c: [c])
    owned, shared, borrowed = analyse(repo)  # type: ignore[arg-type]
    got = sorted(b[1] for b in borrowed)
    problems = []
    if got != ["al", "cfg.aliases", "self.kw"]:
        problems.append(f"positive control: expected borrow-writes ['al', 'cfg.aliases', 'self.kw'], got {got}")
    if owned != 2:
        problems.append(f"positive control: expected 2 owned writes, got {owned}")
    return problems


STORE_ATTRS = ("attrs_registry", "globals", "field_classes", "lines", "encoder_kwargs", "resolved_type_params")


def store_bindings(repo: Repo):
    """R14.9 facts: every `<obj>.<store> = value` in the library, for the per-builder stores the SHARED table trusts.
    -> (ok_count, bad) ; bad = [(FuncInfo, text, lineno)] where value is neither fresh, nor a constructor parameter /
    a value derived from one, i.e. it names an object that outlives the builder (module-level container, class attribute)."""
    ok = 0
    bad = []
    for key, fi in sorted(repo.funcs.items()):
        if not fi.module.startswith("mashumaro"):
            continue
        params = {a.arg for a in fi.node.args.posonlyargs + fi.node.args.args + fi.node.args.kwonlyargs}
        for n in walk_no_nested(fi.node):
            if not isinstance(n, ast.Assign):
                continue
            for t in n.targets:
                if isinstance(t, ast.Attribute) and t.attr in STORE_ATTRS:
                    v = n.value
                    names = {x.id for x in ast.walk(v) if isinstance(x, ast.Name)}
                    fresh = _is_fresh(v) or (isinstance(v, ast.Call) and isinstance(v.func, ast.Name) and v.func.id in ("CodeLines", "resolve_type_params"))
                    from_param = bool(names) and names <= (params | {"self"}) and not fresh
                    if isinstance(v, ast.BoolOp) and all(_is_fresh(x) or (isinstance(x, ast.Name) and x.id in params) for x in v.values):
                        from_param = True
                    if fresh or from_param:
                        ok += 1
                    else:
                        bad.append((fi, ast.unparse(n), n.lineno))
        local = set(params)
        for n in walk_no_nested(fi.node):
            if isinstance(n, ast.Assign):
                for t in n.targets:
                    local |= {x.id for x in ast.walk(t) if isinstance(x, ast.Name)}
        for n in walk_no_nested(fi.node):
            if isinstance(n, ast.Call):
                for k in n.keywords:
                    if k.arg in STORE_ATTRS:
                        v = k.value
                        names = {x.id for x in ast.walk(v) if isinstance(x, ast.Name)}
                        if _is_fresh(v) or (isinstance(v, ast.Constant) and v.value is None) or (names and names <= (local | {"self", "spec"})):
                            ok += 1
                        else:
                            bad.append((fi, f"{k.arg}={ast.unparse(v)}", n.lineno))
    return ok, bad


PARAM_ATTR_OK = {
    ("Registry.get", "spec"): "callers hand Registry.get a ValueSpec of their own (spec.copy(...)); normalising its type in place is the protocol",
    ("apply_array_constraints", "schema"): "decorates the schema object its caller just created",
    ("apply_object_constraints", "schema"): "decorates the schema object its caller just created",
    ("DocstringDescriptionPlugin.get_schema", "schema"): "plugin protocol: the schema under construction is handed over for decoration",
    ("SerializableType.__init_subclass__", "cls"): "the class being created",
    ("SerializationStrategy.__init_subclass__", "cls"): "the class being created",
}


def _makes_fresh(st: ast.stmt, name: str) -> bool:
    """True if after ``st`` the local ``name`` is bound to an object created by this function on every path through st."""
    if isinstance(st, ast.Assign) and len(st.targets) == 1 and isinstance(st.targets[0], ast.Name) and st.targets[0].id == name:
        v = st.value
        return _is_fresh(v) or (isinstance(v, ast.Call) and isinstance(v.func, ast.Name) and v.func.id[:1].isupper())
    if isinstance(st, ast.If):
        def branch(body):
            return any(_makes_fresh(x, name) for x in body)
        return bool(st.orelse) and branch(st.body) and branch(st.orelse)
    return False


def param_attr_stores(repo: Repo):
    """Attribute stores on a parameter object (other than self): allowed after the parameter was rebound to a fresh
    object on every path, or for the designed protocols in PARAM_ATTR_OK. -> (ok, bad[(FuncInfo, text, lineno)])"""
    ok = 0
    bad = []
    for key, fi in sorted(repo.funcs.items()):
        if not fi.module.startswith("mashumaro"):
            continue
        params = {a.arg for a in fi.node.args.posonlyargs + fi.node.args.args + fi.node.args.kwonlyargs} - {"self"}

        def scan(body, fresh: Set[str]):
            nonlocal ok
            fresh = set(fresh)
            for st in body:
                for n in ([st] if not isinstance(st, (ast.If, ast.For, ast.With, ast.Try, ast.While)) else []):
                    tg = n.targets if isinstance(n, ast.Assign) else [n.target] if isinstance(n, (ast.AugAssign, ast.AnnAssign)) else []
                    for t in tg:
                        if isinstance(t, ast.Attribute) and isinstance(t.value, ast.Name) and t.value.id in params:
                            nm = t.value.id
                            if nm in fresh or (fi.qualname, nm) in PARAM_ATTR_OK:
                                ok += 1
                            else:
                                bad.append((fi, ast.unparse(n)[:100], n.lineno))
                if isinstance(st, ast.If):
                    scan(st.body, fresh)
                    scan(st.orelse, fresh)
                elif isinstance(st, (ast.For, ast.While)):
                    scan(st.body, fresh)
                    scan(st.orelse, fresh)
                elif isinstance(st, ast.With):
                    scan(st.body, fresh)
                elif isinstance(st, ast.Try):
                    scan(st.body, fresh)
                    for h in st.handlers:
                        scan(h.body, fresh)
                    scan(st.orelse, fresh)
                    scan(st.finalbody, fresh)
                for nm in params:
                    if _makes_fresh(st, nm):
                        fresh.add(nm)
        scan(fi.node.body, set())
    return ok, bad
