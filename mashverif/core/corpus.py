"""Standard explorations of the generator modules.

``explore_all`` runs the partial evaluator over a fixed list of *scenarios* (entry
function + symbolic arguments + assumptions) that together reach every emission site of
the five generator modules, and returns the emitted buffers and returned expression
templates with their generator paths.  Rules for C16/C17/C15/C18/... consume this corpus.
A syntactic census of emission sites (scen.emission_sites) is compared with the sites the
scenarios reached: an unreached site fails the run as analysis-broken (never silently).
"""

from __future__ import annotations

import ast
import time
from dataclasses import dataclass, field
from typing import Any, Callable, Dict, List, Optional, Sequence, Tuple

from .pe import BUILDER_CLS, Line, Path
from .pe_exec import Evaluator
from .scen import emission_sites, make_eval, symbolic_spec
from .srcmodel import (
    AnalysisError, FuncInfo, GENERATOR_MODULES, M_BUILDER, M_CODEC_BUILDER, M_COMMON, M_PACK,
    M_TYPES, M_UNPACK, Repo, Undecided,
)
from .values import ClsRef, Const, Dct, Func, Hole, LinesRef, Lst, Obj, Py, Sym, Tmpl, Tup, V, show


@dataclass
class Emitted:
    scenario: str
    entry: str
    path: Path
    bid: str
    lines: List[Line]
    kind: str  # 'buffer' | 'return'
    value: Optional[V] = None  # for kind == 'return'
    compiled: bool = True  # buffer reaches an exec sink (or is spliced into one) on this path


@dataclass
class Corpus:
    items: List[Emitted] = field(default_factory=list)
    sites_hit: set = field(default_factory=set)
    sites_all: Dict[Tuple[str, int], str] = field(default_factory=dict)
    stats: Dict[str, Any] = field(default_factory=dict)
    errors: List[str] = field(default_factory=list)

    def missing_sites(self):
        return sorted(set(self.sites_all) - self.sites_hit)


def _discr_obj(ev: Evaluator, p: Path) -> Obj:
    return ev.new_obj(p, f"{M_TYPES}::Discriminator", {
        "field": Sym("discriminator.field", {"RAW", "OPTIONAL", "DISCR"}),
        "include_supertypes": Sym("discriminator.include_supertypes"),
        "include_subtypes": Sym("discriminator.include_subtypes"),
        "variant_tagger_fn": Sym("discriminator.variant_tagger_fn"),
    }, oid="discriminator")


def _collect(corpus: Corpus, name: str, entry: str, ev: Evaluator, paths: List[Path], rets: bool = True):
    helper_scenario = name.startswith(("pack.", "unpack."))
    for q in paths:
        execd = set()
        for ev_ in q.events:
            if ev_ and ev_[0] == "exec" and isinstance(ev_[1], Sym) and isinstance(ev_[1].origin, tuple) and ev_[1].origin[0] == "as_text":
                execd.add(ev_[1].origin[1])
        for bid, lines in q.bufs.items():
            if lines:
                corpus.items.append(Emitted(name, entry, q, bid, lines, "buffer",
                                            compiled=(bid in execd) or not helper_scenario))
        if rets and q.ctl == "return" and q.retv is not None and isinstance(q.retv, (Tmpl, Sym, Const)):
            corpus.items.append(Emitted(name, entry, q, "", [], "return", q.retv))
    corpus.sites_hit |= ev.sites_hit
    st = corpus.stats.setdefault(name, {"paths": 0, "steps": 0})
    st["paths"] += len(paths)
    st["steps"] += ev.steps


def run_scenario(repo: Repo, corpus: Corpus, name: str, fi: FuncInfo, setup: Callable, **kw):
    t0 = time.time()
    ev = make_eval(repo, **kw)
    p = Path()
    try:
        env = setup(ev, p)
        paths = ev.run(fi, env, p)
    except Undecided as e:
        corpus.errors.append(f"{name}: {e}")
        return None, []
    _collect(corpus, name, fi.key, ev, paths)
    corpus.stats[name]["wall_s"] = round(time.time() - t0, 2)
    return ev, paths


def run_method_scenario(repo: Repo, corpus: Corpus, name: str, cls_mod: str, cls_name: str, ctor_args: Callable,
                        method: str, margs: Callable, within: Tuple[str, str], **kw):
    """Construct an in-repo object and call one of its methods (e.g. XBuilder(...).build(spec))."""
    t0 = time.time()
    ev = make_eval(repo, **kw)
    p = Path()
    ci = repo.cls(cls_mod, cls_name)
    ev.call_stack.append(repo.func(*within))
    dummy = ast.parse("x.m()").body[0].value
    out: List[Path] = []
    try:
        cargs = ctor_args(ev, p)
        for o, q in ev.construct(ci, cargs, {}, p, dummy):
            for v, q2 in ev.call_method(o, method, margs(ev, q), {}, q, dummy):
                q2.ctl = "return"
                q2.retv = v
                out.append(q2)
    except Undecided as e:
        corpus.errors.append(f"{name}: {e}")
        return None, []
    finally:
        ev.call_stack.pop()
    _collect(corpus, name, f"{cls_mod}::{cls_name}.{method}", ev, out)
    corpus.stats[name]["wall_s"] = round(time.time() - t0, 2)
    return ev, out


def m_body_placeholder(pe, fv, args, kwargs, p, e):
    """Stub for _add_(un)pack_method_lines in the method-level scenarios: one placeholder statement."""
    p.bufs.setdefault("main", []).append(Line(p.ind.get("main", 0), Tmpl(["return METHOD_BODY"]), (fv.fi.key, 0)))
    return [(Const(None), p)]


def m_build_stub(pe, fv, args, kwargs, p, e):
    fname = kwargs.get("fname", args[0] if args else Sym("fname"))
    out = []
    for b, q in pe.atom(f"has_default({show(fname)})", p):
        lines = pe.new_lines(q)
        if b:
            t = Tmpl(["kwargs[", Hole(fname, "r"), "] = FIELD_BLOCK_VALUE"])
        else:
            t = Tmpl(["__", Hole(fname), " = FIELD_BLOCK_VALUE"])
        q.bufs[lines.bid].append(Line(0, t, (fv.fi.key, 0)))
        q.events.append(("build_call", fname, kwargs.get("alias"), kwargs.get("ftype")))
        o = pe.new_obj(q, f"{M_BUILDER}::FieldUnpackerCodeBlock", {
            "lines": lines, "fname": fname, "in_kwargs": Const(b)})
        out.append((o, q))
    return out



NO_DIALECT = [(r"bool\(B\.dialect\)", False), (r"bool\(B\.default_dialect\)", False),
              (r"B\.dialect is None", True), (r"B\.default_dialect is None", True)]
WITH_DIALECT = [(r"bool\(B\.dialect\)", True), (r"bool\(B\.default_dialect\)", True),
                (r"B\.dialect is None", False), (r"B\.default_dialect is None", False)]
NO_DEBUG = [(r"get_config\(\)\.debug", False)]


def explore_all(repo: Repo, tier: str = "quick") -> Corpus:
    c = Corpus()
    c.sites_all = emission_sites(repo, GENERATOR_MODULES)
    steps = 400000 if tier == "quick" else 1500000

    # ---- builder.py : per-field unpack block
    def s_build(ev, p):
        B = ev.builder_obj(p)
        lines = ev.new_lines(p)
        o = ev.new_obj(p, f"{M_BUILDER}::FieldUnpackerCodeBlockBuilder", {"parent": B, "lines": lines})
        return {"self": o, "fname": Sym("fname", {"FIELDNAME"}), "ftype": Sym("ftype", {"TYPE"}),
                "metadata": Sym("metadata"), "alias": Sym("alias", {"RAW", "OPTIONAL"})}

    run_scenario(repo, c, "build", repo.func(M_BUILDER, "FieldUnpackerCodeBlockBuilder.build"), s_build,
                 inline_depth=5, max_steps=steps)

    def s_B(ev, p):
        return {"self": ev.builder_obj(p), "method_name": Sym("method_name", {"IDENT"})}

    # ---- builder.py : from_dict body.  The per-field block is analysed by scenario "build";
    # here it is summarised (its lines are one marker line) so that the layout code is explored.
    run_scenario(repo, c, "unpack_lines", repo.func(M_BUILDER, "CodeBuilder._add_unpack_method_lines"), s_B,
                 inline_depth=6, max_steps=steps, assume=NO_DEBUG + NO_DIALECT,
                 models={f"{M_BUILDER}::FieldUnpackerCodeBlockBuilder.build": m_build_stub},
                 force_opaque={"build", "__get_field_alias"})
    # the same body compiled for a call dialect (dialect-specific stub re-dispatch, dialect registration of the class-level discriminator)
    c2 = Corpus()
    run_scenario(repo, c2, "unpack_lines", repo.func(M_BUILDER, "CodeBuilder._add_unpack_method_lines"), s_B,
                 inline_depth=6, max_steps=steps, assume=NO_DEBUG + WITH_DIALECT,
                 models={f"{M_BUILDER}::FieldUnpackerCodeBlockBuilder.build": m_build_stub},
                 force_opaque={"build", "__get_field_alias"})
    c.items.extend(c2.items)
    c.sites_hit |= c2.sites_hit
    c.errors.extend(c2.errors)
    for k, v in c2.stats.items():
        c.stats[k + "+dialect"] = v
    run_scenario(repo, c, "field_alias", repo.func(M_BUILDER, "CodeBuilder.__get_field_alias"),
                 lambda ev, p: {"fname": Sym("fname", {"FIELDNAME"})}, inline_depth=2, max_steps=steps)
    run_scenario(repo, c, "unpack_method", repo.func(M_BUILDER, "CodeBuilder.add_unpack_method"),
                 lambda ev, p: {"self": ev.builder_obj(p)}, inline_depth=4, max_steps=steps,
                 models={f"{M_BUILDER}::CodeBuilder._add_unpack_method_lines": m_body_placeholder}, assume=NO_DEBUG,
                 allow_inline={"get_unpack_method_default_flag_values", "get_unpack_method_flags"})
    # ---- builder.py : to_dict body
    run_scenario(repo, c, "pack_lines", repo.func(M_BUILDER, "CodeBuilder._add_pack_method_lines"), s_B,
                 inline_depth=6, max_steps=steps, assume=NO_DEBUG + [(r"is_type_var_any", False), (r"is_optional", False)],
                 force_opaque={"__get_field_alias"})
    run_scenario(repo, c, "pack_method", repo.func(M_BUILDER, "CodeBuilder.add_pack_method"),
                 lambda ev, p: {"self": ev.builder_obj(p)}, inline_depth=4, max_steps=steps,
                 models={f"{M_BUILDER}::CodeBuilder._add_pack_method_lines": m_body_placeholder}, assume=NO_DEBUG,
                 allow_inline={"get_pack_method_default_flag_values", "get_pack_method_flags", "_get_encoder_kwargs"})

    # ---- codecs/_builder.py
    for m in ("add_decode_method", "add_encode_method"):
        def s_codec(ev, p):
            B = ev.builder_obj(p, f"{M_CODEC_BUILDER}::CodecCodeBuilder")
            return {"self": B, "shape_type": Sym("shape_type", {"TYPE"})}
        run_scenario(repo, c, f"codec.{m}", repo.func(M_CODEC_BUILDER, f"CodecCodeBuilder.{m}"), s_codec,
                     inline_depth=4, max_steps=steps, assume=NO_DEBUG)

    # ---- pack.py / unpack.py : every module-level function taking a spec
    for mod in (M_PACK, M_UNPACK):
        for fi in list(repo.module_funcs(mod)):
            if "<locals>" in fi.qualname or fi.cls:
                continue
            params = [a.arg for a in fi.node.args.args]
            if not params or params[0] != "spec":
                continue

            def s_spec(ev, p, params=params):
                env = {"spec": symbolic_spec(ev, p)}
                if "args" in params:
                    env["args"] = Sym("args", {"TYPE"})
                return env

            ge = 2 if fi.node.name in ("pack_union",) else 1
            run_scenario(repo, c, f"{mod.rsplit('.', 1)[-1]}.{fi.qualname}", fi, s_spec, inline_depth=4,
                         max_steps=steps, generic_elems=ge, assume=NO_DEBUG,
                         force_opaque={"build"} if fi.node.name in ("unpack_dataclass", "unpack_special_typing_primitive") else ())

    # ---- unpack.py : the method builders
    spec_arg = lambda ev, p: [symbolic_spec(ev, p)]
    within = (M_UNPACK, "unpack_special_typing_primitive")
    for cls_name, ctor in (
        ("UnionUnpackerBuilder", lambda ev, p: [Sym("union_args", {"TYPE"})]),
        ("TypeVarUnpackerBuilder", lambda ev, p: [Sym("constraints", {"TYPE"})]),
        ("LiteralUnpackerBuilder", lambda ev, p: []),
    ):
        run_method_scenario(repo, c, f"unpack.{cls_name}", M_UNPACK, cls_name, ctor, "build", spec_arg, within,
                            inline_depth=5, max_steps=steps, generic_elems=2 if "Union" in cls_name else 1, assume=NO_DEBUG)
    # discriminated unions: ten independent generator factors -> explored one factor at a time
    # around two base configurations (with / without a discriminator field)
    factors = {
        "nailed": r"bool\(B\.is_nailed\)",
        "field": r"bool\(discriminator\.field\)",
        "tagger": r"bool\(discriminator\.variant_tagger_fn\)|discriminator\.variant_tagger_fn is None",
        "subtypes": r"bool\(discriminator\.include_subtypes\)",
        "supertypes": r"bool\(discriminator\.include_supertypes\)",
        "flags": r"bool\(B\.get_unpack_method_flags\(\)\)",
        "dialect": r"bool\(B\.dialect\)",
        "default_dialect": r"bool\(B\.default_dialect\)",
        "holder_has_attr": r" in spec\.attrs\.__dict__",
    }

    def assume_for(cfg):
        out = list(NO_DEBUG)
        for k, v in cfg.items():
            rx = factors[k]
            if k == "tagger":
                out.append((r"bool\(discriminator\.variant_tagger_fn\)", v))
                out.append((r"discriminator\.variant_tagger_fn is None", not v))
            else:
                out.append((rx, v))
        return out

    base = {"nailed": True, "field": True, "tagger": False, "subtypes": True, "supertypes": False,
            "flags": False, "dialect": False, "default_dialect": False, "holder_has_attr": False}
    cfgs = [dict(base)]
    for k in base:
        d = dict(base)
        d[k] = not base[k]
        cfgs.append(d)
    for k in ("nailed", "tagger", "supertypes", "flags"):
        d = dict(base)
        d["field"] = False
        d[k] = not base[k]
        cfgs.append(d)
    d = dict(base); d["nailed"] = False; d["tagger"] = True; cfgs.append(d)
    d = dict(base); d["supertypes"] = True; d["subtypes"] = False; cfgs.append(d)
    for cls_name in ("DiscriminatedUnionUnpackerBuilder", "SubtypeUnpackerBuilder"):
        for i, cfg in enumerate(cfgs):
            if cls_name == "SubtypeUnpackerBuilder" and cfg["subtypes"] is False:
                continue  # asserted away by the class itself
            run_method_scenario(repo, c, f"unpack.{cls_name}#{i}", M_UNPACK, cls_name,
                                lambda ev, p: [_discr_obj(ev, p)], "build", spec_arg, within,
                                inline_depth=5, max_steps=steps, assume=assume_for(cfg))
    return c


BODY_ONLY = {"pack_lines", "unpack_lines", "build"}


def render_item(it: Emitted):
    """Render a corpus item as parseable Python text (hole markers); None if it is not compiled text."""
    from .skeleton import Rendered, render, render_tmpl

    r = Rendered()
    if it.kind == "buffer":
        if not it.compiled:
            return None
        base = it.scenario.split("#")[0]
        if base == "unpack_lines" and it.bid != "main":
            return None
        body_only = (base in BODY_ONLY and it.bid == "main") if base != "build" else True
        render(it.lines, wrap=body_only, r=r)
        return r
    if isinstance(it.value, Tmpl):
        r.src = "_ret_ = [" + render_tmpl(it.value, r) + "]\n"
        return r
    return None
