"""CLI:  python -m mashverif check <ID> [--tier quick|thorough] [--replay PATH]
         python -m mashverif all [--tier ...]
         python -m mashverif selfcheck
"""

from __future__ import annotations

import argparse
import importlib
import json
import os
import sys
import traceback

from . import REPO, VERIF
from .core.report import Report
from .core.srcmodel import AnalysisError, Repo, Undecided

PROPS = [f"C{i:02d}" for i in range(1, 21)]


def run_check(prop: str, tier: str, seed: int) -> int:
    try:
        mod = importlib.import_module(f"mashverif.props.{prop.lower()}")
    except ModuleNotFoundError:
        print(f"ANALYSIS-ERROR property={prop} no check implemented")
        return 2
    rep = Report(prop, tier, seed, getattr(mod, "TECHNIQUE", "static analysis"))
    rep.explanation = getattr(mod, "EXPLANATION", "")
    rep.assumptions = list(getattr(mod, "ASSUMPTIONS", []))
    try:
        repo = Repo()
        rep.analysed.update(repo.stats())
        mod.run(repo, rep, tier)
        if tier == "thorough":
            from .core import sensitivity

            sensitivity.audit(prop, rep)
    except Undecided as e:
        rep.undecide("engine", str(e))
    except AnalysisError as e:
        rep.error(str(e))
    except Exception as e:  # a crash of the checker is never a property violation
        tb = traceback.format_exc()
        rep.error(f"checker crashed: {type(e).__name__}: {e}\n{tb}")
    if "mashumaro" in sys.modules:
        rep.error("the analyser imported mashumaro; static analysis must not run the repository")
    return rep.finish()


def main(argv=None) -> int:
    ap = argparse.ArgumentParser(prog="mashverif")
    sub = ap.add_subparsers(dest="cmd", required=True)
    c = sub.add_parser("check")
    c.add_argument("prop")
    c.add_argument("--tier", default=os.environ.get("VERIF_TIER", "quick"), choices=["quick", "thorough"])
    c.add_argument("--replay", default=None)
    a = sub.add_parser("all")
    a.add_argument("--tier", default="quick", choices=["quick", "thorough"])
    sub.add_parser("selfcheck")
    args = ap.parse_args(argv)
    seed = int(os.environ.get("VERIF_SEED", "0") or 0)
    if args.cmd == "selfcheck":
        repo = Repo()
        print(json.dumps(repo.stats()))
        with open(os.path.join(VERIF, "MANIFEST.json")) as fh:
            json.load(fh)
        with open(os.path.join(VERIF, "known_findings.json")) as fh:
            json.load(fh)
        print("selfcheck ok")
        return 0
    if args.cmd == "all":
        worst = 0
        for p in PROPS:
            rc = run_check(p, args.tier, seed)
            worst = max(worst, rc)
        return worst
    prop = args.prop.upper()
    if args.replay:
        with open(args.replay) as fh:
            print(json.dumps(json.load(fh), indent=1))
        # replay = re-run the rule set of the property on the current tree
    return run_check(prop, args.tier, seed)


if __name__ == "__main__":
    sys.exit(main())
