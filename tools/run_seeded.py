#!/venv/bin/python
"""Runs the registered checks against every confirmed seeded change (scratch copies, never /repo).

usage: run_seeded.py [--props C05,C07] [--seeds C05-m1,...] [--all-props] [-j 8]
For each /verif/seeded/<id>/patch.diff: copy /repo/mashumaro to a scratch dir, apply the patch there, run the
check of the seeded property (or all claimed checks with --all-props) with MASHVERIF_REPO pointing at the copy,
remove the copy.  Writes /verif/seeded/RESULTS.json and prints a table.
"""
import argparse, json, os, shutil, subprocess, sys, tempfile
from concurrent.futures import ThreadPoolExecutor

VERIF = os.path.dirname(os.path.dirname(os.path.abspath(__file__)))


def claimed():
    man = json.load(open(os.path.join(VERIF, "MANIFEST.json")))
    return [c["property_id"] for c in man["checks"]]


def run_one(seed, props):
    sdir = os.path.join(VERIF, "seeded", seed)
    tmp = tempfile.mkdtemp(prefix=f"seedrun-{seed}-", dir=os.environ.get("TMPDIR", "/tmp"))
    out = {}
    try:
        shutil.copytree("/repo/mashumaro", os.path.join(tmp, "mashumaro"))
        r = subprocess.run(["git", "apply", os.path.join(sdir, "patch.diff")], cwd=tmp, capture_output=True, text=True)
        if r.returncode != 0:
            return seed, {"error": "patch does not apply: " + r.stderr[:200]}
        for p in props:
            env = dict(os.environ, MASHVERIF_REPO=tmp, MASHVERIF_EVIDENCE_DIR=os.path.join(tmp, "evidence"))
            try:
                r = subprocess.run(["/venv/bin/python", "-m", "mashverif", "check", p], cwd=VERIF, env=env, capture_output=True, text=True, timeout=1500)
            except subprocess.TimeoutExpired:
                out[p] = {"rc": "timeout", "rules": [], "undecided": ["timeout after 1500 s"]}
                continue
            viol = [l for l in r.stdout.splitlines() if "] mashumaro" in l or l.startswith("mashumaro")]
            rules = sorted({l.split("[", 1)[1].split("]", 1)[0] for l in r.stdout.splitlines() if ": [R" in l})
            out[p] = {"rc": r.returncode, "rules": rules,
                      "undecided": [l[:200] for l in r.stdout.splitlines() if l.startswith(("UNDECIDED", "ANALYSIS-ERROR"))][:3]}
    finally:
        shutil.rmtree(tmp, ignore_errors=True)
    return seed, out


def main():
    ap = argparse.ArgumentParser()
    ap.add_argument("--props", default="")
    ap.add_argument("--seeds", default="")
    ap.add_argument("--all-props", action="store_true")
    ap.add_argument("-j", type=int, default=8)
    a = ap.parse_args()
    seeds = sorted(d for d in os.listdir(os.path.join(VERIF, "seeded")) if os.path.isfile(os.path.join(VERIF, "seeded", d, "patch.diff")))
    if a.seeds:
        seeds = [s for s in seeds if s in a.seeds.split(",")]
    cl = claimed()
    jobs = []
    for s in seeds:
        own = s.split("-")[0]
        props = cl if a.all_props else ([p for p in a.props.split(",") if p] or ([own] if own in cl else []))
        if props:
            jobs.append((s, props))
    results = {}
    with ThreadPoolExecutor(a.j) as ex:
        for seed, out in ex.map(lambda j: run_one(*j), jobs):
            results[seed] = out
            line = []
            for p, o in out.items():
                if isinstance(o, dict) and "rc" in o:
                    line.append(f"{p}:rc={o['rc']}{' ' + ','.join(o['rules']) if o['rules'] else ''}{' UNDECIDED' if o['undecided'] else ''}")
                else:
                    line.append(f"{p}:{o}")
            print(f"{seed:10s} " + " | ".join(line), flush=True)
    path = os.path.join(VERIF, "seeded", "RESULTS.json")
    old = {}
    if os.path.exists(path):
        old = json.load(open(path))
    for k, v in results.items():
        if "error" in v or "error" in old.get(k, {}):
            old[k] = dict(v)
        else:
            old.setdefault(k, {}).update(v)
    json.dump(old, open(path, "w"), indent=1, sort_keys=True)


if __name__ == "__main__":
    main()
