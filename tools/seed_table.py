#!/venv/bin/python
"""Renders /verif/seeded/RESULTS.json (written by run_seeded.py --all-props) as /verif/seeded/TABLE.md."""
import json, os
V = os.path.dirname(os.path.dirname(os.path.abspath(__file__)))
res = json.load(open(os.path.join(V, "seeded", "RESULTS.json")))
rows = []
det = und = miss = 0
for seed in sorted(res):
    out = res[seed]
    try:
        meta = json.load(open(os.path.join(V, "seeded", seed, "meta.json")))
    except Exception:
        meta = {}
    if "error" in out:
        rows.append(f"| {seed} | — | — | {out['error'][:60]} |")
        continue
    hits = [f"{p} {'/'.join(o['rules'])}" for p, o in sorted(out.items()) if o.get("rc") == 1]
    unds = [p for p, o in sorted(out.items()) if o.get("rc") == 2]
    own = seed.split("-")[0]
    own_hit = any(h.startswith(own + " ") for h in hits)
    if hits:
        det += 1
    elif unds:
        und += 1
    else:
        miss += 1
    summ = (meta.get("summary") or "").replace("|", "/").replace("\n", " ")[:150]
    rows.append(f"| {seed} | {'; '.join(hits) or ('UNDECIDED in ' + ','.join(unds) if unds else '**missed**')} | {'yes' if own_hit else 'no'} | {summ} |")
with open(os.path.join(V, "seeded", "TABLE.md"), "w") as fh:
    fh.write("# Seeded changes vs. checks\n\n")
    fh.write(f"{len(rows)} confirmed seeded changes; detected by at least one check (exit 1 + VIOLATION): {det}; only UNDECIDED (exit 2): {und}; missed: {miss}.\n\n")
    fh.write("| seed | detected by (check rule) | by its own property's check | change |\n|---|---|---|---|\n")
    fh.write("\n".join(rows) + "\n")
print(f"seeds={len(rows)} detected={det} undecided_only={und} missed={miss}")
