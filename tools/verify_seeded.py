#!/venv/bin/python
"""Independently confirms a sub-agent's seeded change in its scratch worktree and files it under
/verif/seeded/<prop>-<m>/ (patch.diff, demo.py, meta.json).

usage: verify_seeded.py <worktree> <prop> <m>     e.g. verify_seeded.py /tmp/wt/C07 C07 m1
Steps: clean tree -> demo passes; apply diff -> demo fails; full suite passes; revert -> demo passes.
"""
import json
import os
import shutil
import subprocess
import sys

PY = "/venv/bin/python"


def sh(cmd, cwd, env=None, timeout=1800):
    e = dict(os.environ)
    e["PYTHONPATH"] = cwd
    if env:
        e.update(env)
    r = subprocess.run(cmd, cwd=cwd, env=e, shell=True, capture_output=True, text=True, timeout=timeout)
    return r.returncode, (r.stdout + r.stderr)


def main():
    wt, prop, m = sys.argv[1:4]
    out = os.path.join(wt, "_out")
    diff = os.path.join(out, f"{m}.diff")
    demo = os.path.join(out, f"{m}_demo.py")
    res = {"property": prop, "mutant": m, "worktree": wt}
    sh("git checkout -- mashumaro", wt)
    rc, o = sh(f"{PY} {demo}", wt)
    res["demo_clean_rc"] = rc
    rc_a, o_a = sh(f"git apply {diff}", wt)
    res["apply_rc"] = rc_a
    rc, o = sh(f"{PY} {demo}", wt)
    res["demo_mutant_rc"] = rc
    res["demo_mutant_tail"] = o.strip().splitlines()[-3:]
    rc, o = sh(f"{PY} -m pytest -q -p no:cacheprovider -n 5 -x", wt, timeout=3000)
    res["suite_rc"] = rc
    res["suite_tail"] = o.strip().splitlines()[-1:] if o.strip() else []
    sh("git checkout -- mashumaro", wt)
    rc, o = sh(f"{PY} {demo}", wt)
    res["demo_reverted_rc"] = rc
    ok = (res["demo_clean_rc"] == 0 and res["apply_rc"] == 0 and res["demo_mutant_rc"] != 0
          and res["suite_rc"] == 0 and res["demo_reverted_rc"] == 0)
    res["confirmed"] = ok
    with open(os.path.join(out, f"{m}.verify.json"), "w") as fh:
        json.dump(res, fh, indent=1)
    if ok:
        dst = f"/verif/seeded/{prop}-{m}"
        os.makedirs(dst, exist_ok=True)
        shutil.copy(diff, os.path.join(dst, "patch.diff"))
        shutil.copy(demo, os.path.join(dst, "demo.py"))
        meta = {}
        try:
            meta = json.load(open(os.path.join(out, f"{m}.json")))
        except Exception:
            pass
        meta.update({
            "property": prop,
            "base_commit": subprocess.run("git rev-parse HEAD", cwd=wt, shell=True, capture_output=True, text=True).stdout.strip(),
            "confirmed_by": "tools/verify_seeded.py in a scratch worktree: demo exits 0 on the clean tree, non-zero with the "
                            "patch applied, the unedited suite passes with the patch applied, demo exits 0 again after reverting",
            "what_was_run": [
                f"git apply patch.diff", f"PYTHONPATH=<wt> {PY} demo.py  -> rc {res['demo_mutant_rc']}",
                f"PYTHONPATH=<wt> {PY} -m pytest -q -p no:cacheprovider -n 5 -x -> {res['suite_tail']}",
                "git checkout -- mashumaro", f"demo.py -> rc {res['demo_reverted_rc']}",
            ],
        })
        with open(os.path.join(dst, "meta.json"), "w") as fh:
            json.dump(meta, fh, indent=1)
    print(json.dumps(res))


if __name__ == "__main__":
    main()
