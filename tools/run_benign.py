#!/venv/bin/python
"""Applies every /verif/benign/*/patch.diff to a scratch copy of /repo/mashumaro and runs all registered checks on it;
every check must exit 0.  usage: run_benign.py [-j N]"""
import glob, json, os, shutil, subprocess, sys, tempfile
from concurrent.futures import ThreadPoolExecutor

VERIF = os.path.dirname(os.path.dirname(os.path.abspath(__file__)))
props = [c["property_id"] for c in json.load(open(os.path.join(VERIF, "MANIFEST.json")))["checks"]]
bad = 0
for d in sorted(glob.glob(os.path.join(VERIF, "benign", "*", "patch.diff"))):
    tmp = tempfile.mkdtemp(prefix="benign-")
    try:
        shutil.copytree("/repo/mashumaro", os.path.join(tmp, "mashumaro"))
        r = subprocess.run(["git", "apply", "-p0", d], cwd=tmp, capture_output=True, text=True)
        if r.returncode:
            print(os.path.basename(os.path.dirname(d)), "patch does not apply (twin is stale):", r.stderr[:100])
            continue

        def one(p):
            env = dict(os.environ, MASHVERIF_REPO=tmp, MASHVERIF_EVIDENCE_DIR=os.path.join(tmp, "evidence"))
            r = subprocess.run(["/venv/bin/python", "-m", "mashverif", "check", p], cwd=VERIF, env=env, capture_output=True, text=True, timeout=3000)
            return p, r.returncode, [l for l in r.stdout.splitlines() if l.startswith(("UNDECIDED", "ANALYSIS", "VIOLATION"))][:3]

        with ThreadPoolExecutor(int(sys.argv[2]) if len(sys.argv) > 2 else 8) as ex:
            for p, rc, lines in ex.map(one, props):
                if rc:
                    bad += 1
                    print(os.path.basename(os.path.dirname(d)), p, "rc", rc, lines)
    finally:
        shutil.rmtree(tmp, ignore_errors=True)
print("benign twins:", "all checks silent" if not bad else f"{bad} alarms")
sys.exit(1 if bad else 0)
