#!/bin/bash
# runs every registered check (quick or thorough) in parallel and prints one line per property
tier=${1:-quick}
cd /verif
mkdir -p /tmp/mv_runall
for i in $(seq -w 1 20); do
  ( /venv/bin/python -m mashverif check C$i --tier $tier > /tmp/mv_runall/C$i.$tier.log 2>&1; echo "C$i rc=$? $(tail -1 /tmp/mv_runall/C$i.$tier.log | cut -c1-160)" ) &
done
wait
