#!/venv/bin/python
"""Regenerates /verif/MANIFEST.json from the table below (kept valid at all times)."""
import importlib
import json
import os
import sys

HERE = os.path.dirname(os.path.dirname(os.path.abspath(__file__)))
sys.path.insert(0, HERE)

PROPS = [f"C{i:02d}" for i in range(1, 21)]

# property -> (level text, level note, design ref); filled as checks are implemented
CLAIMS = {}
NOT_YET = "no static rule implemented yet in this revision (see DESIGN.md section 5 for the planned structural clauses)"


def load_claims():
    for p in PROPS:
        try:
            m = importlib.import_module(f"mashverif.props.{p.lower()}")
        except ModuleNotFoundError:
            continue
        if getattr(m, "DISABLED", False):
            continue
        CLAIMS[p] = {
            "text": getattr(m, "LEVEL_TEXT", m.EXPLANATION),
            "note": getattr(m, "LEVEL_NOTE", "; ".join(getattr(m, "ASSUMPTIONS", []))),
            "technique": m.TECHNIQUE,
        }


def main():
    load_claims()
    checks = []
    na = []
    for p in PROPS:
        if p in CLAIMS:
            c = CLAIMS[p]
            checks.append({
                "property_id": p,
                "quick_cmd": f"/venv/bin/python -m mashverif check {p} --tier quick",
                "thorough_cmd": f"/venv/bin/python -m mashverif check {p} --tier thorough",
                "evidence_file": f"/verif/evidence/{p}.json",
                "replay_cmd_template": f"/venv/bin/python -m mashverif check {p} --replay {{path}}",
                "engine": "mashverif",
                "level_claimed": {
                    "category": "other",
                    "text": c["text"],
                    "design_ref": f"DESIGN.md section 5, {p}",
                },
                "level_note": c["note"],
                "technique": c["technique"],
            })
        else:
            na.append({"property_id": p, "reason": NOT_YET})
    man = {
        "version": 1,
        "setup_cmd": "/venv/bin/python -m mashverif selfcheck",
        "hooks": {
            "guard": "MASHUMARO_VERIF",
            "enable": "none needed: static analysis reads /repo's working tree and never instruments it",
            "baseline_off_cmd": "cd /repo && /venv/bin/python -m pytest -ra -q -p no:cacheprovider --timeout=900 --continue-on-collection-errors",
            "source_commits": [],
            "add_only": True,
        },
        "engines": [{
            "name": "mashverif",
            "path": "/verif/mashverif",
            "serves_properties": sorted(CLAIMS),
            "kind_free_text": "repository-specific static analyser (stdlib ast): source model, path-enumerating partial "
                              "evaluator of the code generator with predicate abstraction, template taint/kind analysis, "
                              "skeleton evaluator for emitted code, dispatch-table simulation over a type catalogue",
        }],
        "checks": checks,
        "not_applicable": na,
        "notes": "All claims are clause-level (category 'other'): each check decides the structural clauses named in its "
                 "text from /repo's current source on every run and never imports or runs mashumaro. Value-level parts "
                 "of the properties are listed as not decided in each level_note and in DESIGN.md. The thorough tier runs the same rules over a larger type catalogue (415 entries) "
                 "and appends a sensitivity audit: the property's confirmed seeded changes (/verif/seeded) are applied one at a time to scratch copies outside /repo and /verif, "
                 "the quick check is run on each, and the outcome is recorded in the evidence (informational; it never changes the verdict on the real tree). "
                 "DESIGN.md sections 7, 8 and 12 record the repairs, the known findings, the seeded-change evaluation and the layout as built.",
    }
    with open(os.path.join(HERE, "MANIFEST.json"), "w") as fh:
        json.dump(man, fh, indent=1)
    print("claimed", sorted(CLAIMS), "not_applicable", [x["property_id"] for x in na])


if __name__ == "__main__":
    main()
